"""C03 - replay buffers return only real, still-stored transitions with correct dones.

Proof side:  Props/C03.v (ring invariant, soundness / completeness of sampling for every capacity,
             n_envs and add/reset history; ties to the statements regenerated from buffers.py).
Tie:         real ReplayBuffer / DictReplayBuffer driven by generated op lists with uniquely tagged
             transitions; at every observation point `sample()` is run with np.random.randint
             patched (harness process only) so that it records the arguments of the index draw and of
             the env-column draw and returns EVERY value of the recorded ranges: the result is the
             complete table of what sample() can return.  The same op list is evaluated by
             Model.Replay.hrun inside coqc and the tables are compared exactly.
Oracle:      written from the property text, independent of the model: each sampled element is
             identified by its action tag with one logged add and one env column; all other fields
             must be that add's, the add must be among the last `capacity` since the last reset, done
             must be ended and not (timeout handling and truncated), size = min(adds, capacity), every
             still-stored transition must be drawable, the memory-optimised variant must not return
             the oldest slot once full.
"""
from __future__ import annotations

import json
import os

from harness import common
from harness.common import Check, coq_Z, coq_bool, coq_list

REGISTRY = dict(
    text=("Proof (unbounded): for every capacity >= 1, n_envs, optimize_memory_usage x handle_timeout_termination and every sequence of add/reset calls, "
          "each (index, env) pair that sample() can draw returns observation, action, reward, next observation of one add() call and one env column, that add being among the "
          "last `capacity` ones; done = ended and not (timeout handling and truncated); size() = min(adds, capacity); every still-stored transition is drawable; the memory-optimised "
          "variant never returns the slot at the write cursor and returns the stored successor when observations chain. Tie: cursor/size/capacity/index-map/done-mask statements are "
          "regenerated from buffers.py on every run + exhaustive sample-table correspondence on ReplayBuffer/DictReplayBuffer. "
          "Also: with a VecNormalize the sample is normalize_* of the stored raw values; reset() empties; RolloutBuffer/DictRolloutBuffer cursor, reset and get() protocol "
          "(add raises iff full, get raises iff not full, arrays flattened exactly once per fill for any number of passes)."),
    note=("Trusted: Coq 8.16.1 kernel (vm_compute, no native_compute), translate/py2coq.py + specs/replay.py, harness/c03.py, Python/numpy/torch/gymnasium. "
          "Not verified: numpy fancy-indexing gather, to_torch, dtype casts (covered by the correspondence on 7 observation and 6 action kinds only). "
          "Known finding F3 `memopt-next-obs-of-done-transition`: optimize_memory_usage=True returns the next episode's first observation as next_obs of an episode-ending transition (Refuted/C03_memopt_done_next.v). "
          "All C03 theorems are closed under the global context (no axioms)."),
    technique="machine-checked proof in Coq (ring-buffer invariant by induction over the history) + regenerated-fragment interface lemmas + differential correspondence with exhaustive sample tables",
)

COV_FUNCS = ['stable_baselines3.common.buffers:BaseBuffer.__init__',
             'stable_baselines3.common.buffers:BaseBuffer.size',
             'stable_baselines3.common.buffers:BaseBuffer.reset',
             'stable_baselines3.common.buffers:BaseBuffer.sample',
             'stable_baselines3.common.buffers:BaseBuffer.extend',
             'stable_baselines3.common.buffers:BaseBuffer.to_torch',
             'stable_baselines3.common.buffers:BaseBuffer._normalize_obs',
             'stable_baselines3.common.buffers:BaseBuffer._normalize_reward',
             'stable_baselines3.common.buffers:ReplayBuffer.__init__',
             'stable_baselines3.common.buffers:ReplayBuffer.add',
             'stable_baselines3.common.buffers:ReplayBuffer.sample',
             'stable_baselines3.common.buffers:ReplayBuffer._get_samples',
             'stable_baselines3.common.buffers:ReplayBuffer._maybe_cast_dtype',
             'stable_baselines3.common.buffers:DictReplayBuffer.__init__',
             'stable_baselines3.common.buffers:DictReplayBuffer.add',
             'stable_baselines3.common.buffers:DictReplayBuffer.sample',
             'stable_baselines3.common.buffers:DictReplayBuffer._get_samples',
             'stable_baselines3.common.buffers:RolloutBuffer.reset',
             'stable_baselines3.common.buffers:RolloutBuffer.add',
             'stable_baselines3.common.buffers:RolloutBuffer.get',
             'stable_baselines3.common.buffers:DictRolloutBuffer.reset',
             'stable_baselines3.common.buffers:DictRolloutBuffer.add',
             'stable_baselines3.common.buffers:DictRolloutBuffer.get']

HEADER = """From Coq Require Import List ZArith Bool.
From SB3V Require Import Model.Replay.
Import ListNotations.
Local Open Scope Z_scope.
"""

KNOWN_F3 = "memopt-next-obs-of-done-transition"

ARRAY_OBS = ["box1", "box2", "image_hwc", "discrete", "multidiscrete", "multibinary", "box_f64", "box_i64"]
DICT_OBS = ["dict_mixed", "dict_img", "dict_wide"]
# leaves whose values are NOT representable in float32: float64 = F64_BASE + tag + 0.25, int64 = I64_BASE + tag (exact only in their own dtype)
F64_BASE, I64_BASE = 1.0e8, 2 ** 40
ACT_KINDS = ["box", "box64", "discrete", "multidiscrete", "multibinary", "box3d"]
MAXTAG = 100000


# ---------------------------------------------------------------- spaces and tag codecs

def obs_space(kind):
    import numpy as np
    from gymnasium import spaces

    from harness import scripted_envs as se

    if kind == "dict_mixed":
        return spaces.Dict({"vec": spaces.Box(-float(MAXTAG), float(MAXTAG), (2,), dtype=np.float32),
                            "d": spaces.Discrete(MAXTAG), "md": spaces.MultiDiscrete([MAXTAG, MAXTAG, MAXTAG])})
    if kind == "box_f64":
        return spaces.Box(-1e12, 1e12, (2,), dtype=np.float64)
    if kind == "box_i64":
        return spaces.Box(-2 ** 50, 2 ** 50, (2,), dtype=np.int64)
    if kind == "dict_wide":
        return spaces.Dict({"f64": spaces.Box(-1e12, 1e12, (1, 2), dtype=np.float64), "i64": spaces.Box(-2 ** 50, 2 ** 50, (2,), dtype=np.int64),
                            "u8": spaces.Box(0, 255, (3,), dtype=np.uint8), "d": spaces.Discrete(MAXTAG)})
    if kind == "dict_img":
        return spaces.Dict({"vec": spaces.Box(-float(MAXTAG), float(MAXTAG), (1, 2), dtype=np.float32),
                            "img": spaces.Box(0, 255, (4, 4, 1), dtype=np.uint8)})
    return se.make_obs_space(kind, img=(4, 4, 3))


def act_space(kind):
    import numpy as np
    from gymnasium import spaces

    if kind == "box":
        return spaces.Box(-float(MAXTAG), float(MAXTAG), (2,), dtype=np.float32)
    if kind == "box64":
        return spaces.Box(-float(MAXTAG), float(MAXTAG), (2,), dtype=np.float64)
    if kind == "box3d":
        return spaces.Box(-float(MAXTAG), float(MAXTAG), (2, 1, 2), dtype=np.float32)
    if kind == "discrete":
        return spaces.Discrete(MAXTAG)
    if kind == "multidiscrete":
        return spaces.MultiDiscrete([MAXTAG, MAXTAG])
    if kind == "multibinary":
        return spaces.MultiBinary(17)
    raise ValueError(kind)


def max_obs_tag(kind):
    return 255 if kind in ("image_hwc", "dict_img", "dict_wide") else MAXTAG - 1


def enc_batch(space, tags, wide=True):
    """VecEnv-style batch (leading axis n_envs) whose every leaf of row e holds tags[e]"""
    import numpy as np
    from gymnasium import spaces

    from harness import scripted_envs as se

    if isinstance(space, spaces.Dict):
        return {k: enc_batch(s, tags, wide) for k, s in space.spaces.items()}
    if isinstance(space, spaces.Discrete):
        return np.array([int(t) for t in tags], dtype=np.int64)
    if wide and isinstance(space, spaces.Box) and space.dtype == np.float64:
        return np.stack([np.full(space.shape, F64_BASE + int(t) + 0.25, dtype=np.float64) for t in tags])
    if wide and isinstance(space, spaces.Box) and space.dtype == np.int64:
        return np.stack([np.full(space.shape, I64_BASE + int(t), dtype=np.int64) for t in tags])
    return np.stack([se.encode(space, int(t)) for t in tags])


def dec_leaf(space, x):
    """tag of one sampled leaf, compared EXACTLY in the leaf's own dtype; a value that is not an encoded tag
    (e.g. one that went through float32) gives the string 'not-a-tag:<value>' instead of a tag"""
    import numpy as np
    from gymnasium import spaces

    from harness import scripted_envs as se

    try:
        if isinstance(space, spaces.Box) and space.dtype in (np.float64, np.int64):
            arr = np.asarray(x)
            vals = np.unique(arr)
            base = F64_BASE + 0.25 if space.dtype == np.float64 else I64_BASE
            if arr.shape != tuple(space.shape) or len(vals) != 1 or float(vals[0] - base) != int(vals[0] - base) or not 0 <= int(vals[0] - base) < 10 ** 6:
                return f"not-a-tag:{arr.reshape(-1)[:3].tolist()} shape {arr.shape}"
            return int(vals[0] - base)
        return se.decode(space, x)
    except Exception as e:       # mixed leaves, wrong shapes ...
        return f"not-a-tag:{type(e).__name__}: {str(e)[:60]}"


def dec_obs(space, arr, j):
    """tag of element j of a sampled observation batch (numpy, or dict of numpy)"""
    from gymnasium import spaces

    if isinstance(space, spaces.Dict):
        parts = {k: dec_leaf(sp, arr[k][j]) for k, sp in space.spaces.items()}
        vals = set(parts.values())
        return vals.pop() if len(vals) == 1 else f"not-a-tag:mixed leaves {parts}"
    return dec_leaf(space, arr[j])


def dtype_problems(obs_sp, act_sp, s):
    """the documented dtype rule of a sample: observations keep the dtype of their space (every Dict key its own), actions keep the dtype
    of the action space except that float64 actions are stored and returned as float32 (GH#1572, by design), rewards and dones are float32"""
    import numpy as np
    import torch as th
    from gymnasium import spaces

    probs = []

    def want(sp):
        return th.from_numpy(np.zeros(1, dtype=sp.dtype)).dtype

    pairs = []
    if isinstance(obs_sp, spaces.Dict):
        for k, sp in obs_sp.spaces.items():
            pairs += [(f"observations[{k}]", s.observations[k].dtype, want(sp)), (f"next_observations[{k}]", s.next_observations[k].dtype, want(sp))]
    else:
        pairs += [("observations", s.observations.dtype, want(obs_sp)), ("next_observations", s.next_observations.dtype, want(obs_sp))]
    wa = th.float32 if act_sp.dtype == np.float64 else want(act_sp)
    pairs += [("actions", s.actions.dtype, wa), ("rewards", s.rewards.dtype, th.float32), ("dones", s.dones.dtype, th.float32)]
    for nm, got, w in pairs:
        if got != w:
            probs.append(f"dtype of sampled {nm} is {got}, the space / documented rule gives {w}")
    return probs


def dec_act(space, a):
    import numpy as np
    from gymnasium import spaces

    flat = np.asarray(a).reshape(-1)
    if flat.size == 0:
        return "not-a-tag:empty action"
    if isinstance(space, spaces.MultiBinary):
        return int(sum(int(b) << i for i, b in enumerate(flat)))
    vals = np.unique(flat)
    if len(vals) != 1 or float(vals[0]) != int(vals[0]):
        return f"not-a-tag:action cells {flat.tolist()[:4]}"
    return int(vals[0])


# ---------------------------------------------------------------- generator

def gen_case(rng, i):
    buf = "dict" if rng.random() < 0.3 else "array"
    obs_kind = rng.choice(DICT_OBS if buf == "dict" else ARRAY_OBS)
    act_kind = rng.choice(ACT_KINDS)
    n_envs = rng.choice([1, 1, 2, 2, 3, 4])
    cap_target = rng.choice([1, 1, 2, 2, 3, 3, 4, 5, 6, 7, rng.randint(1, 12)])
    buffer_size = cap_target * n_envs + rng.randint(0, n_envs - 1)      # not divisible by n_envs included
    if rng.random() < 0.05:
        buffer_size = rng.randint(1, n_envs)                               # buffer_size < n_envs: capacity clamps to 1
    r = rng.random()
    if r < 0.06:
        memopt, hto = True, True                                           # refused by ReplayBuffer
    elif r < 0.40:
        memopt, hto = True, False                                          # (refused by DictReplayBuffer)
    else:
        memopt, hto = False, rng.random() < 0.7
    chained = memopt or rng.random() < 0.3
    cap = max(buffer_size // n_envs, 1)
    budget = max_obs_tag(obs_kind)
    n_ops = rng.choice([rng.randint(1, 8), rng.randint(5, 30), rng.randint(20, 60)])
    p_done = rng.choice([0.1, 0.3, 0.6])
    p_to = rng.choice([0.0, 0.3, 0.7])
    p_obs = rng.choice([0.1, 0.25, 0.5])
    ops = []
    fresh = [0]

    def new_tag():
        fresh[0] += 1
        return fresh[0]

    g = 0
    cur = [None] * n_envs
    for _ in range(n_ops):
        x = rng.random()
        if x < p_obs:
            ops.append({"op": "obs", "batch": rng.randint(1, 6)})
        elif x < p_obs + 0.03:
            ops.append({"op": "reset"})
            cur = [None] * n_envs if rng.random() < 0.5 else cur
        else:
            if fresh[0] + 2 * n_envs > budget:
                break
            row = []
            for e in range(n_envs):
                uid = g * n_envs + e + 1
                done = rng.random() < p_done
                to = rng.random() < (p_to if done else 0.05)               # a timeout flag on a non-ending step too, rarely
                o = cur[e] if (chained and cur[e] is not None) else new_tag()
                nx = new_tag()
                cur[e] = None if done else nx
                row.append([o, nx, uid, uid, done, to, rng.randint(0, 1)])
            ops.append({"op": "add", "row": row})
            g += 1
    ops.append({"op": "obs", "batch": rng.randint(1, 6)})
    # BaseBuffer.extend(): some runs of consecutive adds of an array buffer are stored by one extend() call
    if buf == "array" and rng.random() < 0.3:
        gid, k = 0, 0
        while k < len(ops):
            if ops[k]["op"] == "add" and rng.random() < 0.4:
                j = k
                while j < len(ops) and ops[j]["op"] == "add" and j - k < 4:
                    ops[j]["ext_group"] = gid
                    j += 1
                gid, k = gid + 1, j
            else:
                k += 1
    variants = {"done_dtype": rng.choice(["bool", "bool", "float32", "int64"]), "rew_dtype": rng.choice(["float32", "float64"]),
                "infos_tuple": rng.random() < 0.3, "act_extra_dim": rng.random() < 0.3, "use_defaults": rng.random() < 0.5}
    vecnorm = (obs_kind in ("box1", "box2", "dict_mixed", "dict_img")) and rng.random() < 0.35
    return {"id": i, "buf": buf, "obs_kind": obs_kind, "act_kind": act_kind, "buffer_size": buffer_size, "n_envs": n_envs,
            "memopt": memopt, "hto": hto, "chained": chained, "vecnorm": vecnorm, "variants": variants, "ops": ops}


# ---------------------------------------------------------------- implementation run

class Randint:
    """np.random.randint replacement (harness process only): calls the real generator and records
    (low, high, results).  The enumerating variant is the Stub inside _enum_sample."""

    def __init__(self, orig):
        self.orig = orig
        self.calls = []

    @staticmethod
    def _lohi(args, kw):
        a = list(args)
        low = kw["low"] if "low" in kw else (a.pop(0) if a else None)
        high = kw["high"] if "high" in kw else (a.pop(0) if a else None)
        if high is None:
            low, high = 0, low
        return int(low), int(high)

    def __call__(self, *args, **kw):
        import numpy as np

        low, high = self._lohi(args, kw)
        out = self.orig(*args, **kw)
        self.calls.append((low, high, np.asarray(out).reshape(-1).tolist()))
        return out


def _tuples(case, obs_sp, act_sp, s):
    """decode a (Dict)ReplayBufferSamples into a list of (obs, act, next, done, rew) tags"""
    import numpy as np

    if isinstance(s.observations, dict):
        o = {k: v.numpy() for k, v in s.observations.items()}
        nx = {k: v.numpy() for k, v in s.next_observations.items()}
    else:
        o, nx = s.observations.numpy(), s.next_observations.numpy()
    a, d, r = s.actions.numpy(), s.dones.numpy(), s.rewards.numpy()
    B = len(a)
    assert d.shape == (B, 1) and r.shape == (B, 1), (d.shape, r.shape)
    out = []
    for j in range(B):
        dv, rv = float(d[j, 0]), float(r[j, 0])
        out.append((dec_obs(obs_sp, o, j), dec_act(act_sp, a[j]), dec_obs(obs_sp, nx, j),
                    int(dv) if dv == int(dv) else dv, int(rv) if rv == int(rv) else rv))
    return out


def _make_vecnorm(case, obs_sp, act_sp):
    import gymnasium as gym
    import numpy as np
    from gymnasium import spaces

    from stable_baselines3.common.vec_env import DummyVecEnv, VecNormalize

    class E(gym.Env):
        observation_space, action_space = obs_sp, act_sp

        def reset(self, *, seed=None, options=None):
            return obs_sp.sample(), {}

        def step(self, a):
            return obs_sp.sample(), 0.0, False, False, {}

    keys = None
    if isinstance(obs_sp, spaces.Dict):
        keys = [k for k, s in obs_sp.spaces.items() if isinstance(s, spaces.Box) and s.dtype == np.float32]
    vn = VecNormalize(DummyVecEnv([E] * case["n_envs"]), norm_obs_keys=keys, clip_obs=50.0, clip_reward=30.0)
    rs = np.random.RandomState(case["id"] % 1000)
    rmss = vn.obs_rms.values() if isinstance(vn.obs_rms, dict) else [vn.obs_rms]
    for rms in rmss:
        rms.mean = rs.uniform(-5, 5, rms.mean.shape)
        rms.var = rs.uniform(0.5, 9, rms.var.shape)
    vn.ret_rms.var = np.float64(4.0)
    return vn


def run_impl(case):
    import numpy as np
    import torch as th

    th.set_num_threads(1)

    from stable_baselines3.common.buffers import DictReplayBuffer, ReplayBuffer

    obs_sp, act_sp = obs_space(case["obs_kind"]), act_space(case["act_kind"])
    n = case["n_envs"]
    cls = DictReplayBuffer if case["buf"] == "dict" else ReplayBuffer
    try:
        if not case["memopt"] and case["hto"] and case.get("variants", {}).get("use_defaults"):
            buf = cls(case["buffer_size"], obs_sp, act_sp, device="cpu", n_envs=n)      # the documented defaults: no memory optimisation, timeouts handled
        else:
            buf = cls(case["buffer_size"], obs_sp, act_sp, device="cpu", n_envs=n,
                      optimize_memory_usage=case["memopt"], handle_timeout_termination=case["hto"])
    except (ValueError, AssertionError) as e:
        return {"refused": type(e).__name__, "obs": []}
    vn = _make_vecnorm(case, obs_sp, act_sp) if case.get("vecnorm") else None
    out = {"refused": None, "capacity": int(buf.buffer_size), "obs": []}
    pending_ext = None
    orig = np.random.randint
    ri = Randint(orig)
    np.random.randint = ri
    try:
        for op in case["ops"]:
            if op["op"] == "add":
                if op.get("ext_group") is not None and pending_ext and pending_ext[0] == op["ext_group"]:
                    continue                      # already stored by the extend() call of its group
                var = case.get("variants", {})
                ddt = {"bool": bool, "float32": np.float32, "int64": np.int64}[var.get("done_dtype", "bool")]
                rdt = {"float32": np.float32, "float64": np.float64}[var.get("rew_dtype", "float32")]

                def args_of(row):
                    infos = [({"TimeLimit.truncated": True} if t[5] else ({} if t[6] == 0 else {"TimeLimit.truncated": False})) for t in row]
                    if var.get("infos_tuple"):
                        infos = tuple(infos)
                    act = enc_batch(act_sp, [t[2] for t in row], wide=False)   # float64 actions are stored as float32 by design: action tags stay float32-exact
                    if var.get("act_extra_dim") and act.ndim == 1:
                        act = act.reshape(-1, 1)          # Discrete actions as (n_envs, 1) instead of (n_envs,)
                    return (enc_batch(obs_sp, [t[0] for t in row]), enc_batch(obs_sp, [t[1] for t in row]), act,
                            np.array([t[3] for t in row], dtype=rdt), np.array([bool(t[4]) for t in row]).astype(ddt), infos)

                if op.get("ext_group") is not None:
                    # BaseBuffer.extend(): one call storing the whole group of consecutive adds
                    group = [o for o in case["ops"] if o.get("ext_group") == op["ext_group"]]
                    buf.extend(*[list(x) for x in zip(*[args_of(o["row"]) for o in group])])
                    pending_ext = (op["ext_group"],)
                else:
                    buf.add(*args_of(op["row"]))
            elif op["op"] == "reset":
                buf.reset()
            else:
                rec = {"size": int(buf.size()), "pos": int(buf.pos), "full": bool(buf.full), "err": None, "problems": []}
                # ---- complete table through the public sample() with the controlled draw
                ri.calls = []
                s = None
                try:
                    s, drawn_idx, drawn_env = _enum_sample(buf, ri, op.get("batch", 1), None)
                except ValueError as e:
                    rec["err"] = f"ValueError: {e}"
                rec["calls"] = [(c[0], c[1]) for c in ri.calls]
                if s is not None:
                    idx_lo, idx_hi = ri.calls[0][0], ri.calls[0][1]
                    e_lo, e_hi = ri.calls[1][0], ri.calls[1][1]
                    tup = _tuples(case, obs_sp, act_sp, s)
                    cells = {}
                    for j, (d, e) in enumerate(zip(drawn_idx, drawn_env)):
                        cells[(int(d), int(e))] = list(tup[j])
                    rec["table"] = [[d, [cells.get((d, e)) for e in range(e_lo, e_hi)]] for d in range(idx_lo, idx_hi)]
                    rec["env_range"] = [e_lo, e_hi]
                    if len(ri.calls) != 2:
                        rec["problems"].append(f"sample() made {len(ri.calls)} randint calls, expected 2")
                    rec["problems"] += dtype_problems(obs_sp, act_sp, s)
                    if len(tup) != len(drawn_idx):
                        rec["problems"].append(f"sample() returned {len(tup)} elements for {len(drawn_idx)} drawn indices")
                    # ---- VecNormalize: normalised sample = normalize_* of the raw one; actions/dones untouched
                    if vn is not None:
                        keep = ri.calls
                        ri.calls = []
                        s2, _, _ = _enum_sample(buf, ri, 1, vn)
                        ri.calls = keep
                        rec["problems"] += _check_norm(vn, s, s2)
                    # ---- an ordinary sample() with the real generator: arguments and contents
                    ri.calls = []
                    s3 = buf.sample(op.get("batch", 1))
                    t3 = _tuples(case, obs_sp, act_sp, s3)
                    if len(ri.calls) != 2 or (ri.calls[0][0], ri.calls[0][1]) != (idx_lo, idx_hi) or (ri.calls[1][0], ri.calls[1][1]) != (e_lo, e_hi):
                        rec["problems"].append(f"ordinary sample() drew with {[(c[0], c[1]) for c in ri.calls]}, enumerated call with {rec['calls']}")
                    else:
                        for j, (d, e) in enumerate(zip(ri.calls[0][2], ri.calls[1][2])):
                            if list(t3[j]) != cells.get((d, e)):
                                rec["problems"].append(f"ordinary sample() element {j} (draw {d}, env {e}) = {t3[j]} differs from the enumerated table entry {cells.get((d, e))}")
                                break
                        if len(t3) != op.get("batch", 1):
                            rec["problems"].append(f"sample({op.get('batch', 1)}) returned {len(t3)} elements")
                out["obs"].append(rec)
    finally:
        np.random.randint = orig
    return out


def _enum_sample(buf, ri, batch, env):
    """public sample() with np.random.randint returning every index of the range the code asks for
    (1st call) x every env column of the range it asks for (2nd call); records (low, high) in ri.calls.
    Returns (samples, drawn indices, drawn env columns)."""
    import numpy as np

    class Stub:
        def __init__(self):
            self.k, self.idx, self.env = 0, [], []

        def __call__(self, *args, **kw):
            low, high = Randint._lohi(args, kw)
            k = self.k
            self.k += 1
            ri.calls.append((low, high, None))
            if low >= high:
                raise ValueError("low >= high")
            if k == 0:
                # the number of env columns is only asked for in the 2nd call: repeat every index n_envs times
                self.rep = max(int(getattr(buf, "n_envs", 1)), 1)
                self.idx = np.repeat(np.arange(low, high, dtype=np.int64), self.rep)
                return self.idx
            if k == 1:
                # cyclic over the requested env range (= tile when the range is [0, n_envs))
                self.env = np.resize(np.arange(low, high, dtype=np.int64), len(self.idx))
                return self.env
            return ri.orig(*args, **kw)

    stub = Stub()
    np.random.randint = stub
    try:
        s = buf.sample(batch, env=env) if env is not None else buf.sample(batch)
    finally:
        np.random.randint = ri
    return s, list(stub.idx), list(stub.env)


def _check_norm(vn, raw, nrm):
    import numpy as np

    probs = []
    if isinstance(raw.observations, dict):
        ro = {k: v.numpy() for k, v in raw.observations.items()}
        rn = {k: v.numpy() for k, v in raw.next_observations.items()}
        eo, en = vn.normalize_obs(ro), vn.normalize_obs(rn)
        for k in ro:
            if not np.array_equal(np.asarray(eo[k], dtype=np.float32), nrm.observations[k].numpy().astype(np.float32)):
                probs.append(f"VecNormalize: observations[{k}] != normalize_obs(raw)")
            if not np.array_equal(np.asarray(en[k], dtype=np.float32), nrm.next_observations[k].numpy().astype(np.float32)):
                probs.append(f"VecNormalize: next_observations[{k}] != normalize_obs(raw)")
    else:
        eo, en = vn.normalize_obs(raw.observations.numpy()), vn.normalize_obs(raw.next_observations.numpy())
        if not np.array_equal(np.asarray(eo, dtype=np.float32), nrm.observations.numpy()):
            probs.append("VecNormalize: observations != normalize_obs(raw)")
        if not np.array_equal(np.asarray(en, dtype=np.float32), nrm.next_observations.numpy()):
            probs.append("VecNormalize: next_observations != normalize_obs(raw)")
    er = vn.normalize_reward(raw.rewards.numpy()).astype(np.float32)
    if not np.array_equal(er, nrm.rewards.numpy()):
        probs.append("VecNormalize: rewards != normalize_reward(raw)")
    if not np.array_equal(raw.actions.numpy(), nrm.actions.numpy()) or not np.array_equal(raw.dones.numpy(), nrm.dones.numpy()):
        probs.append("VecNormalize: actions or dones changed by normalisation")
    return probs


# ---------------------------------------------------------------- oracle (from the property text)

def oracle(case, impl):
    """returns list of (signature, message); F3 instances get signature KNOWN_F3"""
    probs = []
    n = case["n_envs"]
    refuse_expected = case["memopt"] and (case["hto"] or case["buf"] == "dict")
    if impl["refused"]:
        if not refuse_expected:
            probs.append(("oracle-constructor-refused", f"constructor raised {impl['refused']} for a supported configuration"))
        return probs
    if refuse_expected:
        return probs          # accepting a documented-unsupported configuration is not a C03 violation; the model comparison reports it
    cap = max(case["buffer_size"] // n, 1)
    log = {}                   # action tag -> (g, e, transition)
    by_add = {}                # (add number, env) -> transition
    hist = []                  # adds since the last reset: global add numbers
    g = 0
    it = iter(impl["obs"])
    for op in case["ops"]:
        if op["op"] == "add":
            for e, t in enumerate(op["row"]):
                log[t[2]] = (g, e, t)
                by_add[(g, e)] = t
            hist.append(g)
            g += 1
            continue
        if op["op"] == "reset":
            hist = []
            continue
        rec = next(it)
        for p in rec["problems"]:
            probs.append(("oracle-sample-call", p))
        adds = len(hist)
        if rec["size"] != min(adds, cap):
            probs.append(("oracle-size", f"size() = {rec['size']} after {adds} adds since reset with capacity {cap}"))
        stored = hist[-cap:] if adds else []
        expected = set()
        for k in stored:
            if case["memopt"] and adds >= cap and k == hist[-cap]:
                continue       # memory-optimised and full: the oldest slot's successor has been overwritten
            for e in range(n):
                expected.add((k, e))
        if "table" not in rec:
            if expected:
                probs.append(("oracle-complete-sample-raises", f"sample() raised {rec['err']} although {len(expected)} stored transitions are valid"))
            continue
        drawn = set()
        for d, per_env in rec["table"]:
            for ei, tup in enumerate(per_env):
                if tup is None:
                    continue   # env column outside what the enumeration could reach (reported by the env-range comparison)
                o, a, nx, dn, rw = tup
                where = f"draw {d} env {rec['env_range'][0] + ei}"
                if isinstance(a, str) or a not in log:
                    probs.append(("oracle-not-an-added-transition", f"{where}: action tag {a} was never added (tuple {tup})"))
                    continue
                k, e, t = log[a]
                if k not in stored:
                    probs.append(("oracle-not-among-last-capacity-adds", f"{where}: returns add #{k}, stored adds are {stored}"))
                    continue
                if case["memopt"] and adds >= cap and k == hist[-cap]:
                    probs.append(("oracle-memopt-returns-overwritten-slot", f"{where}: returns the oldest add #{k} whose next observation has been overwritten"))
                    continue
                drawn.add((k, e))
                want_done = 1 if (t[4] and not (case["hto"] and t[5])) else 0
                bad = [nm for nm, got, want in (("obs", o, t[0]), ("reward", rw, t[3]), ("next_obs", nx, t[1]), ("done", dn, want_done)) if got != want]
                if not bad:
                    continue
                # F3, exactly: memory-optimised, the transition ended an episode, it is not the newest add, only next_obs is wrong
                # and what is returned is the observation of the FOLLOWING add of the same column
                if case["memopt"] and t[4] and bad == ["next_obs"] and (k + 1, e) in by_add and hist and k != hist[-1] and nx == by_add[(k + 1, e)][0]:
                    probs.append((KNOWN_F3, f"optimize_memory_usage=True: {where} returns add #{k} env {e} (done=1) with next_obs tag {nx} "
                                            f"instead of the stored terminal observation {t[1]}"))
                else:
                    probs.append(("oracle-fields-" + "-".join(bad), f"{where}: add #{k} env {e} stored (obs,next,rew,done)=({t[0]},{t[1]},{t[3]},{want_done}) "
                                                                    f"but sample returned (obs,act,next,done,rew)={tup}"))
        missing = sorted(expected - drawn)
        if missing:
            probs.append(("oracle-stored-transition-not-drawable", f"stored valid (add, env) pairs that no draw returns: {missing[:6]} (drawn {len(drawn)} of {len(expected)})"))
    return probs


# ---------------------------------------------------------------- model

def model_expr(case):
    def trans(t):
        return f"mkT {coq_Z(t[0])} {coq_Z(t[1])} {coq_Z(t[2])} {coq_Z(t[3])} {coq_bool(t[4])} {coq_bool(t[5])}"

    ops = []
    for op in case["ops"]:
        if op["op"] == "add":
            ops.append("HAdd " + coq_list(op["row"], trans))
        elif op["op"] == "reset":
            ops.append("HReset")
        else:
            ops.append("HObs")
    return (f"hrun_from (create {coq_bool(case['buf'] == 'dict')} {coq_Z(case['buffer_size'])} {coq_Z(case['n_envs'])} "
            f"{coq_bool(case['memopt'])} {coq_bool(case['hto'])}) {coq_list(ops)}")


def compare_model(case, impl, mv):
    probs = []
    if mv is None:
        if not impl["refused"]:
            probs.append(("refusal", "model refuses the configuration, the constructor accepted it"))
        return probs
    if impl["refused"]:
        probs.append(("refusal", f"constructor raised {impl['refused']}, model accepts"))
        return probs
    mobs = mv[1]
    if len(mobs) != len(impl["obs"]):
        return [("obs-count", f"{len(mobs)} model observations vs {len(impl['obs'])}")]
    for j, (m, rec) in enumerate(zip(mobs, impl["obs"])):
        msize, mpos, mfull, (mlo, mhi), mtable = m
        if (msize, mpos, mfull) != (rec["size"], rec["pos"], rec["full"]):
            probs.append(("cursor", f"obs #{j}: (size,pos,full) impl {(rec['size'], rec['pos'], rec['full'])} model {(msize, mpos, mfull)}"))
        if not rec["calls"] or tuple(rec["calls"][0]) != (mlo, mhi):
            probs.append(("sample-bounds", f"obs #{j}: index draw randint{tuple(rec['calls'][0]) if rec['calls'] else ()} model {(mlo, mhi)}"))
        if "table" not in rec:
            if mlo < mhi:
                probs.append(("sample-raises", f"obs #{j}: impl raised {rec['err']}, model range {(mlo, mhi)} is not empty"))
            continue
        if rec["env_range"] != [0, case["n_envs"]]:
            probs.append(("env-range", f"obs #{j}: env columns drawn from {rec['env_range']}, model [0, {case['n_envs']})"))
        mt = [[d, [list(x) for x in per]] for d, per in mtable]
        if mt != rec["table"]:
            bad = next((a, b) for a, b in zip(mt + [None], rec["table"] + [None]) if a != b)
            probs.append(("table", f"obs #{j}: first differing draw: model {bad[0]} impl {bad[1]}"))
    return probs


# ---------------------------------------------------------------- driver

def run_cases(chk, cases, name="C03"):
    impls = []
    for c in cases:
        try:
            impls.append(run_impl(c))
        except Exception as e:  # an exception of the implementation on a well-formed op list is itself a concrete failing input
            import traceback

            impls.append({"refused": None, "crash": f"{type(e).__name__}: {e}", "traceback": traceback.format_exc()[-2500:], "obs": []})
    vals = common.coq_eval_many(name, HEADER, [model_expr(c) for c in cases], shard=50, procs=4)
    results = []
    for c, im, mv in zip(cases, impls, vals):
        if im.get("crash"):
            results.append(([("oracle-implementation-raised", "add() / sample() / size() / reset() raised on a legal op list: " + im["crash"])], []))
            continue
        try:
            orc = oracle(c, im)
        except Exception as e:
            orc = [("oracle-unexpected-value", f"the recorded samples contain a value the oracle cannot interpret: {type(e).__name__}: {e}")]
        results.append((orc, compare_model(c, im, mv)))
    return impls, results


# ================================================================ RolloutBuffer / DictRolloutBuffer protocol
RHEADER = """From Coq Require Import List ZArith Bool.
From SB3V Require Import Model.Minibatch Model.Rollout.
Import ListNotations.
"""


def gen_rollout_case(rng, i):
    T, n = rng.choice([1, 2, 2, 3, 4, 5]), rng.choice([1, 2, 3])
    ops = []
    for _ in range(rng.randint(2, 22)):
        x = rng.random()
        if x < 0.62:
            ops.append(["add"])
        elif x < 0.9:
            ops.append(["get", rng.choice([None, 1, 2, 3, T * n, T * n + 2])])
        else:
            ops.append(["reset"])
    return {"id": i, "dict": rng.random() < 0.4, "T": T, "n": n, "ops": ops, "discrete": rng.random() < 0.3, "scalar_logp": n == 1 and rng.random() < 0.5}


def run_rollout(case):
    import numpy as np
    import torch as th
    from gymnasium import spaces

    from stable_baselines3.common.buffers import DictRolloutBuffer, RolloutBuffer

    th.set_num_threads(1)
    T, n = case["T"], case["n"]
    box = lambda: spaces.Box(-1e6, 1e6, (3,), dtype=np.float32)  # noqa: E731
    act = spaces.Box(-1e6, 1e6, (2,), dtype=np.float32)
    disc = bool(case.get("discrete"))
    if case["dict"]:
        sp = spaces.Dict({"a": spaces.Discrete(100000) if disc else box(), "b": spaces.Box(-1e6, 1e6, (1, 2), dtype=np.float32)})
        buf = DictRolloutBuffer(T, sp, act, device="cpu", n_envs=n)
    else:
        sp = spaces.Discrete(100000) if disc else box()
        buf = RolloutBuffer(T, sp, act, device="cpu", n_envs=n)
    out, g = [], 0
    for op in case["ops"]:
        rec = {"raised": None}
        try:
            if op[0] == "add":
                g += 1
                tags = np.array([g * 10 + e for e in range(n)], dtype=np.float32)
                oa = tags.astype(np.int64) if disc else np.repeat(tags[:, None], 3, 1)        # Discrete observations arrive as shape (n_envs,)
                obs = {"a": oa, "b": np.repeat(tags[:, None], 2, 1).reshape(n, 1, 2)} if case["dict"] else oa
                logp = th.tensor(-tags - 0.125)
                if case.get("scalar_logp"):
                    logp = logp.reshape(())                                                    # one env: a 0-d log-prob tensor
                buf.add(obs, np.stack([tags + 0.5, -tags], 1), tags + 0.25, np.zeros(n, dtype=np.float32), th.tensor(tags + 0.125), logp)
                rec["added"] = [int(t) for t in tags]
            elif op[0] == "reset":
                buf.reset()
            else:
                cells = []
                for mb in buf.get(op[1]):
                    o = mb.observations
                    oa = (o["a"] if case["dict"] else o).numpy()
                    oa = oa.reshape(len(oa), -1)
                    ob = o["b"].numpy().reshape(len(oa), -1) if case["dict"] else oa
                    for j in range(len(oa)):
                        vals = set(float(v) for v in oa[j]) | set(float(v) for v in ob[j])
                        t = oa[j][0]
                        ok = (len(vals) == 1 and mb.actions[j].tolist() == [float(t) + 0.5, -float(t)] and float(mb.old_values[j]) == float(t) + 0.125
                              and float(mb.old_log_prob[j]) == -float(t) - 0.125)
                        cells.append([int(t), bool(ok)])
                rec["pass"] = cells
        except (AssertionError, IndexError, ValueError) as e:
            rec["raised"] = type(e).__name__
        arr = buf.observations["a"] if case["dict"] else buf.observations
        rec.update(pos=int(buf.pos), full=bool(buf.full), ready=bool(buf.generator_ready),
                   flat=[int(v) for v in np.asarray(arr).reshape(len(arr), -1)[:, 0]] if buf.generator_ready else None)
        out.append(rec)
    return out


def rollout_expr(case):
    n, g, ops = case["n"], 0, []
    for op in case["ops"]:
        if op[0] == "add":
            g += 1
            ops.append("RAdd " + coq_list([g * 10 + e for e in range(n)], coq_Z))
        else:
            ops.append("RReset" if op[0] == "reset" else "RGet")
    # the model's add counter must follow the implementation's: a raising add still consumed a tag number above, as in run_rollout
    return f"robserve (rcreate {case['T']}%nat {case['n']}%nat) {coq_list(ops)}"


def check_rollout(case, impl, mv):
    """(oracle problems, model disagreements)"""
    orc, mod = [], []
    T, n = case["T"], case["n"]
    stored = []            # tags of the rows added since the last reset (oracle's own account)
    for j, (op, rec, m) in enumerate(zip(case["ops"], impl, mv)):
        merr, mpos, mfull, mready, mflat = m
        mflat_l = None if mflat is None else list(mflat[1] if isinstance(mflat, tuple) else mflat)
        if (bool(merr), mpos, bool(mfull), bool(mready), mflat_l) != (rec["raised"] is not None, rec["pos"], rec["full"], rec["ready"], rec["flat"]):
            mod.append(("rollout-state", f"op #{j} {op}: impl (raised,pos,full,ready,flat)={(rec['raised'], rec['pos'], rec['full'], rec['ready'], rec['flat'])} model {(merr, mpos, mfull, mready, mflat_l)}"))
        if op[0] == "add":
            if len(stored) < T:
                if rec["raised"]:
                    orc.append(("oracle-rollout-add-raises", f"op #{j}: add() raised {rec['raised']} with {len(stored)} of {T} rows stored"))
                else:
                    stored.append(rec["added"])
            elif not rec["raised"]:
                orc.append(("oracle-rollout-add-beyond-capacity", f"op #{j}: add() accepted row {len(stored) + 1} of a buffer of {T}"))
        elif op[0] == "reset":
            stored = []
            if (rec["pos"], rec["full"]) != (0, False):
                orc.append(("oracle-rollout-reset", f"op #{j}: after reset() pos={rec['pos']} full={rec['full']}"))
        else:
            if len(stored) < T:
                if not rec["raised"]:
                    orc.append(("oracle-rollout-get-before-full", f"op #{j}: get() ran with {len(stored)} of {T} rows stored"))
            elif rec["raised"]:
                orc.append(("oracle-rollout-get-raises", f"op #{j}: get() raised {rec['raised']} on a full buffer"))
            else:
                want = sorted(t for row in stored for t in row)
                got = sorted(c[0] for c in rec["pass"])
                if got != want:
                    orc.append(("oracle-rollout-pass-not-exactly-once", f"op #{j}: pass yields cells {got[:12]}, stored {want[:12]}"))
                elif not all(c[1] for c in rec["pass"]):
                    orc.append(("oracle-rollout-fields-misaligned", f"op #{j}: a minibatch element mixes fields of different (step, env) cells"))
        if rec["pos"] != len(stored) or rec["full"] != (len(stored) == T):
            orc.append(("oracle-rollout-cursor", f"op #{j}: pos={rec['pos']} full={rec['full']} with {len(stored)} of {T} rows stored"))
    return orc, mod


def rollout_campaign(chk, n_cases):
    cases = [gen_rollout_case(chk.rng, i) for i in range(n_cases)]
    cases.insert(0, {"id": -1, "dict": False, "T": 3, "n": 2, "ops": [["add"], ["get", None], ["add"], ["add"], ["add"], ["get", 4], ["get", None], ["get", 1], ["reset"], ["get", None], ["add"], ["add"], ["add"], ["get", 2], ["get", 2]]})
    impls = []
    for c in cases:
        try:
            impls.append(run_rollout(c))
        except Exception as e:
            import traceback

            impls.append(None)
            chk.violation("oracle-implementation-raised", f"RolloutBuffer add() / get() / reset() raised on a legal op list: {type(e).__name__}: {e}",
                          {"rollout_case": c, "traceback": traceback.format_exc()[-2500:]}, found_input=True)
    vals = common.coq_eval_many("C03_roll", RHEADER, [rollout_expr(c) for c in cases], shard=150, procs=4)
    new, passes = 0, 0
    for c, im, mv in zip(cases, impls, vals):
        if im is None:
            continue
        orc, mod = check_rollout(c, im, mv)
        passes += sum(1 for r in im if "pass" in r)
        if orc and new < 2:
            chk.violation(orc[0][0], "; ".join(m for _, m in orc[:3]), {"rollout_case": c, "problems": orc[:8], "model_disagreements": mod[:4]}, found_input=True)
            new += 1
        elif mod and new < 2:
            chk.violation("model-correspondence-" + mod[0][0], "; ".join(m for _, m in mod[:3]),
                          {"rollout_case": c, "problems": mod[:8], "correspondence": "harness/c03.py run_rollout vs Model.Rollout.robserve"}, found_input=False)
            new += 1
    return len(cases), passes


def nontrivial(case, impl):
    if impl["refused"] or impl.get("crash"):
        return False
    cap = max(case["buffer_size"] // case["n_envs"], 1)
    adds, wrapped, saw_done, saw_to = 0, False, False, False
    for op in case["ops"]:
        if op["op"] == "add":
            adds += 1
            wrapped |= adds > cap
            saw_done |= any(t[4] for t in op["row"])
            saw_to |= any(t[4] and t[5] for t in op["row"])
        elif op["op"] == "reset":
            adds = 0
    return wrapped and saw_done and (saw_to or not case["hto"])


def report(chk, case, orc, mod, impl):
    """one case's problems -> violations; returns number of NEW (non-F3) problems"""
    f3 = [p for p in orc if p[0] == KNOWN_F3]
    other = [p for p in orc if p[0] != KNOWN_F3]
    if f3:
        chk.notes["f3_cases"] = chk.notes.get("f3_cases", 0) + 1
        if chk.notes["f3_cases"] == 1:      # reported once per run, from the first (corpus) input that shows it
            chk.violation(KNOWN_F3, f3[0][1], {"case": case, "problems": f3[:5]}, found_input=True)
    # model disagreements that are exactly the F3 elements are expected: the faithful model reproduces F3
    if other:
        chk.violation(other[0][0], "; ".join(m for _, m in other[:3]),
                      {"case": case, "problems": other[:10], "model_disagreements": mod[:5]}, found_input=True)
        return 1
    if mod:
        chk.violation("model-correspondence-" + mod[0][0], "; ".join(m for _, m in mod[:3]),
                      {"case": case, "problems": mod[:10],
                       "correspondence": "harness/c03.py run_impl (real sample() tables) vs Model.Replay.hrun"}, found_input=False)
        return 1
    return 0


def load_corpus():
    p = os.path.join(common.VERIF, "corpus", "C03.jsonl")
    return [json.loads(l) for l in open(p) if l.strip()] if os.path.exists(p) else []


def main():
    chk = Check("C03", groups=["replay"])
    chk.build_props()
    from harness import linecov

    _cov = linecov.maybe_start(COV_FUNCS)
    n_cases = 1500 if chk.tier == "quick" else 15000
    cases = load_corpus()
    n_corpus = len(cases)
    for i in range(n_cases):
        cases.append(gen_case(chk.rng, i))
    new, n_oracle, model_only = 0, 0, []
    distinct = set()
    hist = {"array": 0, "dict": 0, "memopt": 0, "hto": 0, "refused": 0, "vecnorm": 0, "chained": 0, "obs_kind": {}, "act_kind": {},
            "capacity": {}, "n_envs": {}, "ops_le_8": 0, "ops_9_30": 0, "ops_gt_30": 0, "observation_points": 0, "table_cells": 0,
            "buffer_size_not_divisible": 0, "sample_raises_on_empty": 0}
    CH = 500
    for s in range(0, len(cases), CH):
        part = cases[s:s + CH]
        impls, results = run_cases(chk, part, name=f"C03_{s // CH}")
        for c, im, (orc, mod) in zip(part, impls, results):
            hist[c["buf"]] += 1
            hist["memopt"] += int(c["memopt"])
            hist["hto"] += int(c["hto"])
            hist["refused"] += int(bool(im["refused"]))
            hist["vecnorm"] += int(bool(c.get("vecnorm")))
            hist["chained"] += int(bool(c.get("chained")))
            for k, v in (("obs_kind", c["obs_kind"]), ("act_kind", c["act_kind"]), ("n_envs", c["n_envs"]),
                         ("capacity", max(c["buffer_size"] // c["n_envs"], 1))):
                hist[k][v] = hist[k].get(v, 0) + 1
            L = len(c["ops"])
            hist["ops_le_8" if L <= 8 else "ops_9_30" if L <= 30 else "ops_gt_30"] += 1
            hist["buffer_size_not_divisible"] += int(c["buffer_size"] % c["n_envs"] != 0)
            for rec in im["obs"]:
                hist["observation_points"] += 1
                hist["table_cells"] += sum(len(p) for _, p in rec.get("table", []))
                hist["sample_raises_on_empty"] += int(rec["err"] is not None)
            if nontrivial(c, im):
                distinct.add((c["buf"], c["obs_kind"], c["act_kind"], c["buffer_size"], c["n_envs"], c["memopt"], c["hto"]))
            if [p_ for p_ in orc if p_[0] != KNOWN_F3]:
                if n_oracle < 3:
                    n_oracle += 1
                    new += report(chk, c, orc, mod, im)          # a concrete failing input: reported at once
            elif orc:
                report(chk, c, orc, [], im)                      # F3 only
                if mod:
                    model_only.append((c, mod, im))
            elif mod:
                model_only.append((c, mod, im))                  # model and implementation disagree, the oracle does not confirm: reported AFTER the concrete inputs
        if n_oracle >= 3:
            break
    for c, mod, im in model_only[:max(0, 3 - n_oracle)]:
        new += report(chk, c, [], mod, im)
    n_roll, roll_passes = rollout_campaign(chk, 300 if chk.tier == "quick" else 3000)
    hist["rollout_op_lists"], hist["rollout_get_passes"] = n_roll, roll_passes
    chk.coverage["evaluations"] = len(cases) + n_roll
    chk.coverage["traces_validated_against_impl"] = hist["observation_points"] + roll_passes
    chk.coverage["distinct_nontrivial"] = len(distinct)
    chk.coverage["rule"] = ("op lists of 1-61 add/reset/observe calls on ReplayBuffer and DictReplayBuffer, capacity 1-12, n_envs 1-4 (buffer_size not divisible by n_envs included), "
                            "6 array + 2 Dict observation kinds, 6 action kinds, optimize_memory_usage x handle_timeout_termination (refused combinations included), with and without VecNormalize; "
                            "every observation point enumerates sample() over the whole recorded randint range x every env column; "
                            "non-trivial = the ring wrapped at least once since the last reset and the history contains an episode end (and a truncated end when timeouts are handled); "
                            "distinct = distinct (buffer class, obs kind, action kind, buffer_size, n_envs, memopt, timeout handling) among non-trivial cases")
    chk.notes["input_distribution"] = hist
    chk.notes["corpus_cases"] = n_corpus
    chk.add_samples([{k: cases[i][k] for k in ("buf", "obs_kind", "act_kind", "buffer_size", "n_envs", "memopt", "hto", "vecnorm")} | {"n_ops": len(cases[i]["ops"])}
                     for i in (n_corpus, n_corpus + 1) if i < len(cases)])
    chk.assumptions += [
        "numpy fancy-indexing gather, to_torch and dtype casts are tied to the model by this correspondence only (tags are exact in every dtype used)",
        "np.random.randint is replaced in the harness process to enumerate the ranges the code itself passes; the uniformity of the real generator is not examined",
        "for optimize_memory_usage=True the generated histories chain observations inside an episode (obs of the next add = next_obs of the previous one), as real collection does",
    ]
    linecov.finish(_cov, chk)
    return chk.finish()


def replay(path):
    d = json.load(open(path))
    case = d["replay"]["case"]
    chk = Check("C03", groups=["replay"])
    impls, results = run_cases(chk, [case], name="C03_replay")
    orc, mod = results[0]
    print(json.dumps({"oracle": orc[:10], "model_disagreements": mod[:10]}, indent=1))
    return 1 if [p for p in orc if p[0] != KNOWN_F3] or (mod and not orc) else 0
