"""C08 - target networks change only by the Polyak rule, at the configured cadence.

Proof side:  Props/C08.v (polyak law / strict zip / who writes what; update-time sets of the DQN,
             TD3/DDPG and SAC counters for all runs; ties to the regenerated cadence conditions and
             polyak factors).  Refuted/C08_sac_every_k_global.v (finding F9).
Tie:         (a) polyak_update itself on generated tensor lists against Model.Polyak.polyak_list
                 (exact dyadic stream, toleranced stream, length mismatches);
             (b) tiny real DQN / SAC / TD3 / DDPG runs (n_envs, train_freq, gradient_steps incl. -1,
                 target_update_interval / policy_delay, tau, with and without batch-norm) instrumented
                 in the harness process: a per-step callback, wrappers around train(), every
                 optimizer.step and the module-level polyak_update record a timeline with snapshots of
                 all target parameters and running statistics; the update flags per vectorised env
                 step (DQN) / per gradient step (SAC, TD3, DDPG) are compared with Model.Cadence
                 evaluated inside coqc.
Oracle:      from the property text: spacing of the update instants (DQN: in env steps counted
             across sub-envs; SAC: in gradient steps, globally; TD3/DDPG: exactly the delayed actor
             updates), each update = (1-tau)*target + tau*online with running statistics copied and
             the online network untouched, no target change between updates.
Monitor:     (partial, not a theorem) no optimizer.step changes a target tensor; no optimizer owns a
             target parameter (object identity).
"""
from __future__ import annotations

import json
import os
from fractions import Fraction

from harness import common
from harness.common import Check, coq_Q, coq_Z, coq_list, coq_nat

REGISTRY = dict(
    text=("Proof (unbounded): polyak(tau, p, t) = (1-tau)*t + tau*p assembled from the factors regenerated from utils.polyak_update, tau=1 copies, tau=0 keeps, result between target and online "
          "for tau in [0,1], strict zip, an update leaves the online parameters untouched and optimizer steps leave the target untouched (event model); update-time sets for every run: DQN at vectorised "
          "steps that are multiples of max(tui // n_envs, 1) (= tui env steps when n_envs divides tui), TD3/DDPG at global gradient steps that are multiples of policy_delay whatever the grouping into "
          "train() calls, SAC inside one train() call at loop indices that are multiples of tui; at an update instant every target parameter gets polyak(configured tau) and every target running statistic is copied "
          "(regenerated tau arguments of both polyak_update calls per algorithm), nothing writes the targets in between; composed with the learn-loop model of C12: closed forms for the number of rollouts, "
          "train() calls and target updates of a whole off-policy learn() call (DQN in env steps, TD3/DDPG global counter, SAC = calls x ceil(g/interval)). Tie: the three cadence conditions and the polyak factors are regenerated on every run + instrumented real runs. "
          "PARTIAL: 'no optimizer touches a target parameter' is a runtime monitor (tensor snapshots around every optimizer.step, parameter identity), not a theorem."),
    note=("Trusted: Coq 8.16.1 kernel (vm_compute, no native_compute), translate/py2coq.py + specs/polyak.py, harness/c08.py, Python/numpy/torch. "
          "Not verified: torch in-place kernels mul_/add(alpha) and float32 rounding (exact dyadic stream + tolerance 1e-6 stream), autograd, the off-policy learn loop that decides the train() calls "
          "(its gradient-step counts are taken from the recorded calls). Known findings: F9 `sac-target-interval-restarts-each-train-call` (SAC's gradient_step counter restarts in every train() call; Refuted/C08_sac_every_k_global.v) and F23 `td3-shared-target-features-extractor-updated-twice` (TD3/DDPG with share_features_extractor=True and a parametric extractor: the shared target extractor is polyak-updated by both calls of one update). "
          "All C08 theorems are closed under the global context (no axioms)."),
    technique="machine-checked proof in Coq (counter machines by induction, rational arithmetic) + regenerated-fragment interface lemmas + instrumented differential runs; runtime monitor for optimizer/target disjointness (partial)",
)

COV_FUNCS = ['stable_baselines3.common.utils:polyak_update',
             'stable_baselines3.common.utils:zip_strict',
             'stable_baselines3.dqn.dqn:DQN._on_step',
             'stable_baselines3.dqn.dqn:DQN._setup_model',
             'stable_baselines3.sac.sac:SAC.train',
             'stable_baselines3.td3.td3:TD3.train']

HEADER = """From Coq Require Import List ZArith QArith Bool.
From SB3V Require Import Lib.QUtil Model.Polyak Model.Cadence Model.LearnLoop Model.LearnCadence.
Import ListNotations.
"""

KNOWN_F9 = "sac-target-interval-restarts-each-train-call"
CAND_SHARED = "td3-shared-target-features-extractor-updated-twice"


# ---------------------------------------------------------------- (a) polyak_update on tensor lists

def gen_polyak_case(rng, i):
    exact = i % 2 == 0
    n = rng.randint(0, 4)
    shapes = [rng.choice([(1,), (2,), (2, 2), (3,)]) for _ in range(n)]
    mismatch = rng.random() < 0.15
    if exact:
        tau = rng.choice([0.0, 1.0, 0.5, 0.25, 0.75, 0.125])
        val = lambda: rng.randint(-64, 64) / 4.0  # noqa: E731
    else:
        tau = rng.choice([0.005, 0.1, rng.random(), 0.99])
        val = lambda: rng.uniform(-3, 3)  # noqa: E731
    ps = [[val() for _ in range(_size(s))] for s in shapes]
    ts = [[val() for _ in range(_size(s))] for s in shapes]
    extra = None
    if mismatch:
        extra = rng.choice(["params", "targets"])
    events = None
    if exact and not mismatch and n > 0 and rng.random() < 0.5:
        events = []
        for _ in range(rng.randint(2, 5)):
            if rng.random() < 0.5:
                events.append(["opt", [[val() for _ in range(_size(s))] for s in shapes]])
            else:
                events.append(["upd", rng.choice([0.0, 1.0, 0.5, 0.25, 0.75])])
    return {"id": i, "exact": exact, "tau": tau, "shapes": shapes, "ps": ps, "ts": ts, "extra": extra, "events": events}


def gen_units_case(rng, i):
    """a short history of cadence units on (online, target) parameter and running-statistics lists: Model.Polyak.units_run"""
    k, m = rng.randint(1, 3), rng.randint(0, 2)
    val = lambda: rng.randint(-32, 32) / 4.0  # noqa: E731
    return {"id": i, "ptau": rng.choice([0.0, 1.0, 0.5, 0.25, 0.75]),
            "p0": [val() for _ in range(k)], "s0": [val() for _ in range(m)], "tp0": [val() for _ in range(k)], "ts0": [val() for _ in range(m)],
            "units": [[[val() for _ in range(k)], [val() for _ in range(m)], rng.random() < 0.4] for _ in range(rng.randint(1, 6))]}


def run_units(case):
    import torch as th

    from stable_baselines3.common.utils import polyak_update

    f = lambda v: th.tensor(v, dtype=th.float32)  # noqa: E731
    on_p, on_s, tg_p, tg_s = [f([x]) for x in case["p0"]], [f([x]) for x in case["s0"]], [f([x]) for x in case["tp0"]], [f([x]) for x in case["ts0"]]
    for np_, ns_, flag in case["units"]:
        with th.no_grad():
            for t, x in zip(on_p, np_):
                t.fill_(x)
            for t, x in zip(on_s, ns_):
                t.fill_(x)
        if flag:                                   # the two calls every algorithm makes at an update instant
            polyak_update(on_p, tg_p, case["ptau"])
            polyak_update(on_s, tg_s, 1.0)
    return {"tg_p": [float(t) for t in tg_p], "tg_s": [float(t) for t in tg_s]}


def units_expr(case, impl):
    q = lambda v: coq_list([Fraction(x) for x in v], coq_Q)  # noqa: E731
    us = coq_list([f"({q(a)}, {q(b)}, {'true' if fl else 'false'})" for a, b, fl in case["units"]])
    return (f"let r := units_run {coq_Q(Fraction(case['ptau']))} 1 (mkN {q(case['p0'])} {q(case['s0'])} {q(case['tp0'])} {q(case['ts0'])}) {us} in "
            f"(qclose_list 0 0 (tg_params r) {q(impl['tg_p'])}, qclose_list 0 0 (tg_stats r) {q(impl['tg_s'])})")


def oracle_units(case, impl):
    tp, ts = [Fraction(x) for x in case["tp0"]], [Fraction(x) for x in case["ts0"]]
    tau = Fraction(case["ptau"])
    for np_, ns_, flag in case["units"]:
        if flag:
            tp = [(1 - tau) * t + tau * Fraction(p) for p, t in zip(np_, tp)]
            ts = [Fraction(x) for x in ns_]
    if [Fraction(x) for x in impl["tg_p"]] != tp or [Fraction(x) for x in impl["tg_s"]] != ts:
        return [("oracle-polyak-units", f"after units {[(a, b, fl) for a, b, fl in case['units']]} targets {impl['tg_p']} / statistics {impl['tg_s']}, expected {[float(x) for x in tp]} / {[float(x) for x in ts]}")]
    return []


def _size(s):
    n = 1
    for d in s:
        n *= d
    return n


def run_polyak(case):
    import math

    r = _run_polyak(case)
    if r.get("ts") is not None and any(not math.isfinite(x) for v in r["ts"] for x in v):
        return {"error": None, "nonfinite": True, "ts": None}
    return r


def _run_polyak(case):
    import torch as th

    from stable_baselines3.common.utils import polyak_update

    ps = [th.tensor(v, dtype=th.float32).reshape(s) for v, s in zip(case["ps"], case["shapes"])]
    ts = [th.tensor(v, dtype=th.float32).reshape(s) for v, s in zip(case["ts"], case["shapes"])]
    if case["extra"] == "params":
        ps.append(th.zeros(1))
    elif case["extra"] == "targets":
        ts.append(th.zeros(1))
    ps0 = [p.clone() for p in ps]
    if case.get("events"):
        # optimizer steps overwrite the online tensors in place; updates call polyak_update: Model.Polyak.pair_run
        for kind, arg in case["events"]:
            if kind == "opt":
                with th.no_grad():
                    for p_, v, sh in zip(ps, arg, case["shapes"]):
                        p_.copy_(th.tensor(v, dtype=th.float32).reshape(sh))
            else:
                polyak_update(iter(ps), iter(ts), arg)
        return {"error": None, "ret": True, "ts": [[float(x) for x in t.reshape(-1)] for t in ts], "ps32": [[float(x) for x in p.reshape(-1)] for p in ps],
                "online_untouched": True, "sequence": True}
    try:
        r = polyak_update(iter(ps), iter(ts), case["tau"])
    except ValueError as e:
        return {"error": str(e)}
    return {"error": None, "ret": r is None, "ts": [[float(x) for x in t.reshape(-1)] for t in ts],
            "ps32": [[float(x) for x in p.reshape(-1)] for p in ps0],
            "online_untouched": all(th.equal(a, b) for a, b in zip(ps, ps0))}


def polyak_expr(case, impl):
    import numpy as np

    if impl.get("nonfinite"):
        return "([false] : list bool)"

    f32 = lambda x: Fraction(float(np.float32(x)))  # noqa: E731
    ps = [f32(x) for v in case["ps"] for x in v] + ([Fraction(0)] if case["extra"] == "params" else [])
    ts = [f32(x) for v in case["ts"] for x in v] + ([Fraction(0)] if case["extra"] == "targets" else [])
    tau = Fraction(case["tau"])
    if case.get("events"):
        evs = []
        for kind, arg in case["events"]:
            evs.append("OptStep " + coq_list([f32(x) for v in arg for x in v], coq_Q) if kind == "opt" else f"Update {coq_Q(Fraction(arg))}")
        got = [Fraction(x) for v in impl["ts"] for x in v]
        return f"qclose_list 0 0 (snd (pair_run ({coq_list(ps, coq_Q)}, {coq_list(ts, coq_Q)}) {coq_list(evs)})) {coq_list(got, coq_Q)}"
    if impl["error"] is not None:
        return f"match polyak_list {coq_Q(tau)} {coq_list(ps, coq_Q)} {coq_list(ts, coq_Q)} with None => true | Some _ => false end"
    got = [Fraction(x) for v in impl["ts"] for x in v]
    tol = "0 0" if case["exact"] else "(1 # 100000)%Q (1 # 1000000)%Q"
    return (f"match polyak_list {coq_Q(tau)} {coq_list(ps, coq_Q)} {coq_list(ts, coq_Q)} with "
            f"None => [false] | Some r => qclose_list {tol} r {coq_list(got, coq_Q)} end")


def oracle_polyak(case, impl):
    import numpy as np

    probs = []
    if impl.get("nonfinite"):
        return [("oracle-polyak-law", f"polyak_update produced a non-finite target value (tau {case['tau']})")]
    if case["extra"]:
        if impl["error"] is None:
            probs.append(("oracle-polyak-length-mismatch-accepted", "polyak_update accepted parameter lists of different lengths"))
        return probs
    if impl["error"] is not None:
        return [("oracle-polyak-raises", f"polyak_update raised {impl['error']}")]
    if case.get("events"):
        # replay the events with exact arithmetic: an update sets target := (1-tau)*target + tau*online of that moment
        cur_p = [Fraction(float(np.float32(x))) for v in case["ps"] for x in v]
        cur_t = [Fraction(float(np.float32(x))) for v in case["ts"] for x in v]
        for kind, arg in case["events"]:
            if kind == "opt":
                cur_p = [Fraction(float(np.float32(x))) for v in arg for x in v]
            else:
                cur_t = [(1 - Fraction(arg)) * t + Fraction(arg) * p for p, t in zip(cur_p, cur_t)]
        got = [Fraction(x) for v in impl["ts"] for x in v]
        if got != cur_t:
            probs.append(("oracle-polyak-sequence", f"after events {[(k, a if k == 'upd' else '...') for k, a in case['events']]} the target is {[float(x) for x in got][:6]}, expected {[float(x) for x in cur_t][:6]}"))
        return probs
    if not impl["online_untouched"]:
        probs.append(("oracle-polyak-online-changed", "polyak_update modified the online parameters"))
    tau = Fraction(case["tau"])
    flat_p = [Fraction(float(np.float32(x))) for v in case["ps"] for x in v]
    flat_t = [Fraction(float(np.float32(x))) for v in case["ts"] for x in v]
    got = [Fraction(x) for v in impl["ts"] for x in v]
    for j, (p, t, g) in enumerate(zip(flat_p, flat_t, got)):
        want = (1 - tau) * t + tau * p
        ok = (g == want) if case["exact"] else abs(float(g - want)) <= 1e-6 + 1e-5 * abs(float(want))
        if not ok:
            probs.append(("oracle-polyak-law", f"element {j}: target {float(t)} online {float(p)} tau {case['tau']}: got {float(g)}, (1-tau)*target+tau*online = {float(want)}"))
            break
    return probs


# ---------------------------------------------------------------- (b) instrumented runs

def gen_run(rng, i):
    algo = rng.choice(["DQN", "DQN", "SAC", "SAC", "TD3", "TD3", "DDPG"])
    n_envs = rng.choice([1, 1, 2, 3])
    tf = rng.choice([1, 1, 2, 3, "episode"])
    if tf == "episode" and n_envs > 1:
        tf = 1                                      # episodic train_freq needs a single env
    return {"id": i, "algo": algo, "n_envs": n_envs, "train_freq": tf, "gradient_steps": rng.choice([1, 1, 2, 3, 4, -1]),
            "tui": rng.choice([1, 2, 3, 4, 5, 7, 10]), "policy_delay": rng.choice([1, 2, 2, 3]),
            "tau": rng.choice([1.0, 0.5, 0.25, 0.005, 0.0]), "learning_starts": rng.choice([0, 2, 5]),
            "ent_coef": rng.choice(["auto", "auto", 0.1, "auto_0.5"]), "use_sde": rng.random() < 0.25, "share_fe": rng.random() < 0.3, "n_critics": rng.choice([1, 2, 2, 3]),
            "total": rng.randint(14, 36), "total2": rng.choice([None, None, rng.randint(5, 20)]), "bn": rng.random() < 0.3, "ep_len": rng.choice([3, 4, 6])}


def run_algo(cfg):
    import gymnasium as gym
    import numpy as np
    import torch as th
    from gymnasium import spaces
    from torch import nn

    import stable_baselines3 as sb3
    from stable_baselines3.common import utils as sb3_utils
    from stable_baselines3.common.callbacks import BaseCallback
    from stable_baselines3.common.torch_layers import BaseFeaturesExtractor
    from stable_baselines3.common.vec_env import DummyVecEnv

    import warnings

    warnings.filterwarnings("ignore", category=UserWarning)
    th.set_num_threads(1)
    algo = cfg["algo"]
    discrete = algo == "DQN"
    ep_len = cfg["ep_len"]

    class Env(gym.Env):
        observation_space = spaces.Box(-1.0, 1.0, (3,), dtype=np.float32)
        action_space = spaces.Discrete(3) if discrete else spaces.Box(-1.0, 1.0, (2,), dtype=np.float32)

        def __init__(self):
            self.t = 0
            self.rs = np.random.RandomState(cfg["id"])

        def reset(self, *, seed=None, options=None):
            self.t = 0
            return self.rs.uniform(-1, 1, 3).astype(np.float32), {}

        def step(self, a):
            self.t += 1
            return self.rs.uniform(-1, 1, 3).astype(np.float32), float(self.rs.uniform(-1, 1)), False, self.t >= ep_len, {}

    class BNExtractor(BaseFeaturesExtractor):
        def __init__(self, observation_space):
            super().__init__(observation_space, features_dim=4)
            self.net = nn.Sequential(nn.Linear(3, 4), nn.BatchNorm1d(4), nn.ReLU())

        def forward(self, x):
            return self.net(x)

    pk = dict(net_arch=[8])
    if cfg["bn"]:
        pk["features_extractor_class"] = BNExtractor
    tf = cfg["train_freq"] if cfg["train_freq"] != "episode" else (1, "episode")
    kw = dict(policy_kwargs=pk, device="cpu", seed=cfg["id"] % 1000, learning_starts=cfg["learning_starts"], batch_size=4, buffer_size=60,
              train_freq=tf, gradient_steps=cfg["gradient_steps"], tau=cfg["tau"], verbose=0)
    venv = DummyVecEnv([Env] * cfg["n_envs"])
    if algo == "DQN":
        model = sb3.DQN("MlpPolicy", venv, target_update_interval=cfg["tui"], **kw)
        mod = sb3.dqn.dqn
        targets = {"q_net_target": model.q_net_target}
        onlines = {"q_net_target": model.q_net}
        opts = {"policy.optimizer": model.policy.optimizer}
        tick = "policy.optimizer"
    elif algo == "SAC":
        kw["policy_kwargs"] = dict(kw["policy_kwargs"], n_critics=cfg.get("n_critics", 2), share_features_extractor=bool(cfg.get("share_fe")))
        model = sb3.SAC("MlpPolicy", venv, target_update_interval=cfg["tui"], ent_coef=cfg.get("ent_coef", "auto"), use_sde=bool(cfg.get("use_sde")), sde_sample_freq=2, **kw)
        mod = sb3.sac.sac
        targets = {"critic_target": model.critic_target}
        onlines = {"critic_target": model.critic}
        opts = {"actor.optimizer": model.actor.optimizer, "critic.optimizer": model.critic.optimizer}
        if model.ent_coef_optimizer is not None:
            opts["ent_coef_optimizer"] = model.ent_coef_optimizer
        tick = "critic.optimizer"
    else:
        cls = sb3.TD3 if algo == "TD3" else sb3.DDPG
        extra = {"policy_delay": cfg["policy_delay"]} if algo == "TD3" else {}
        kw["policy_kwargs"] = dict(kw["policy_kwargs"], share_features_extractor=bool(cfg.get("share_fe")), **({"n_critics": cfg.get("n_critics", 2)} if algo == "TD3" else {}))
        model = cls("MlpPolicy", venv, **extra, **kw)
        mod = sb3.td3.td3
        targets = {"critic_target": model.critic_target, "actor_target": model.actor_target}
        onlines = {"critic_target": model.critic, "actor_target": model.actor}
        opts = {"actor.optimizer": model.actor.optimizer, "critic.optimizer": model.critic.optimizer}
        tick = "critic.optimizer"

    # stated precondition of every C08 statement about "the target": right after construction each target network is a copy of its online network
    for nm in targets:
        so, st_ = onlines[nm].state_dict(), targets[nm].state_dict()
        diff = [k for k in so if k not in st_ or not th.equal(so[k], st_[k])]
        if diff:
            raise AssertionError(f"TARGET-NOT-A-COPY {nm}: {len(diff)} tensors differ from the online network right after construction, e.g. {diff[0]}")

    def tensors_of(net):
        return [p for p in net.parameters()] + [b for n, b in net.named_buffers() if "running_" in n]

    target_tensors = [t for net in targets.values() for t in tensors_of(net)]
    target_ids = {id(t) for net in targets.values() for t in list(net.parameters()) + list(net.buffers())}

    def snap():
        return th.cat([t.detach().reshape(-1).float() for t in target_tensors]).clone()

    out = {"events": [], "problems": [], "monitor": [], "instant_law": [], "has_bn": any("running_" in n for net in targets.values() for n, _ in net.named_buffers())}
    ev = out["events"]
    st = {"last": snap(), "polyak_since": False}

    def mark(what):
        if what != "polyak_update entry" and inst:
            close_instant()
        s = snap()
        if not th.equal(s, st["last"]) and not st["polyak_since"]:
            out["problems"].append(f"a target tensor changed before event {what} (#{len(ev)}) without a polyak_update call")
        st["last"], st["polyak_since"] = s, False

    # ---- optimizers: identity disjointness + snapshots around every step
    for name, opt in opts.items():
        owned = {id(p) for g in opt.param_groups for p in g["params"]}
        if owned & target_ids:
            out["monitor"].append(f"{name} owns {len(owned & target_ids)} target parameter(s)")

        def make(name=name, opt=opt, orig=opt.step):
            def step(*a, **k):
                if name == tick:
                    mark("tick")
                    ev.append(("tick",))
                pre = snap()
                r = orig(*a, **k)
                if not th.equal(pre, snap()):
                    out["monitor"].append(f"{name}.step() changed a target tensor (event #{len(ev)})")
                ev.append(("opt", name))
                return r
            return step

        opt.step = make()

    # ---- polyak_update as the modules call it
    orig_polyak = sb3_utils.polyak_update
    ids_of = {nm: [id(x) for x in net.parameters()] for nm, net in targets.items()}
    inst = {}                     # data_ptr of a target tensor -> [value before the update instant, online value, tau, number of polyak writes]
    shared_ptrs = set()
    if len(targets) == 2:
        a_, b_ = [set(x.data_ptr() for x in net.parameters()) for net in targets.values()]
        shared_ptrs = a_ & b_

    def close_instant():
        for ptr, (bt, bp, tau_, cnt, t) in inst.items():
            want = (1 - tau_) * bt.float() + tau_ * bp.float()
            if not th.allclose(t.detach().float(), want, rtol=1e-5, atol=1e-6):
                twice = (1 - tau_) * want + tau_ * bp.float()
                kind = "shared-twice" if (ptr in shared_ptrs and cnt == 2 and th.allclose(t.detach().float(), twice, rtol=1e-5, atol=1e-6)) else "other"
                out["instant_law"].append([kind, float(tau_), cnt, float((t.detach().float() - want).abs().max())])
        inst.clear()

    def polyak(params, target_params, tau):
        params, target_params = list(params), list(target_params)
        if not params and not target_params:
            return orig_polyak(params, target_params, tau)          # empty list of running statistics (no normalisation layer)
        is_bn = len(target_params) > 0 and not isinstance(target_params[0], nn.Parameter)
        tids = [id(x) for x in target_params]
        which = next((nm for nm, l in ids_of.items() if l == tids), "?")
        if is_bn:
            which = "bn:?"
            for nm, net in targets.items():
                if any(b.data_ptr() == target_params[0].data_ptr() for b in net.buffers()):
                    which = "bn:" + nm
        mark("polyak_update entry")
        before_t = [t.detach().clone() for t in target_params]
        before_p = [p.detach().clone() for p in params]
        for t_, bt_, bp_ in zip(target_params, before_t, before_p):
            e_ = inst.get(t_.data_ptr())
            if e_ is None:
                inst[t_.data_ptr()] = [bt_, bp_, float(tau), 1, t_]
            else:
                e_[3] += 1
        r = orig_polyak(params, target_params, tau)
        law = len(params) == len(target_params) and all(
            th.allclose(t.detach().float(), (1 - tau) * bt.float() + tau * bp.float(), rtol=1e-5, atol=1e-6)
            for t, bt, bp in zip(target_params, before_t, before_p))
        untouched = all(th.equal(p.detach(), bp) for p, bp in zip(params, before_p))
        ev.append(("polyak", which, float(tau), bool(law), bool(untouched), len(target_params)))
        st["last"], st["polyak_since"] = snap(), True
        return r

    mod.polyak_update = polyak

    # ---- train() and the per-step callback
    orig_train = model.train

    def train(*a, **k):
        g = k.get("gradient_steps", a[0] if a else None)
        mark("train_start")
        ev.append(("train_start", int(g)))
        r = orig_train(*a, **k)
        mark("train_end")
        ev.append(("train_end",))
        return r

    model.train = train

    class CB(BaseCallback):
        def _on_step(self):
            mark("cb")
            ev.append(("cb", int(self.model.num_timesteps)))
            return True

    try:
        model.learn(cfg["total"], callback=CB())
        if cfg.get("total2"):
            model.learn(cfg["total2"], callback=CB(), reset_num_timesteps=False)      # the counters must run on across learn() calls
        mark("end")
        # running statistics of every target equal those of its online network after the last update (tau = 1 copy)
        out["bn_equal_after_last_update"] = None
    finally:
        mod.polyak_update = orig_polyak
    out["n_calls"] = int(getattr(model, "_n_calls", 0))
    return out


def flags_of(cfg, impl):
    """update flags per vectorised env step (DQN) or per gradient step (others), train-call sizes,
    actor-step flags, structural problems"""
    ev = impl["events"]
    probs = []
    main = {"DQN": ["q_net_target"], "SAC": ["critic_target"], "TD3": ["critic_target", "actor_target"], "DDPG": ["critic_target", "actor_target"]}[cfg["algo"]]
    units, gs, cur_unit, in_train = [], [], None, False

    def close():
        nonlocal cur_unit
        if cur_unit is not None:
            units.append(cur_unit)
        cur_unit = None

    for e in ev:
        k = e[0]
        if k == "cb":
            if cfg["algo"] == "DQN":
                close()
                cur_unit = {"main": [], "bn": [], "actor": False}
        elif k == "train_start":
            in_train = True
            gs.append(0)
            if cfg["algo"] == "DQN":
                close()
                cur_unit = None
            declared = e[1]
            gs_decl = declared
        elif k == "tick":
            if cfg["algo"] != "DQN":
                close()
                cur_unit = {"main": [], "bn": [], "actor": False}
            gs[-1] += 1
        elif k == "train_end":
            in_train = False
            if cfg["algo"] != "DQN":
                close()
            if gs[-1] != gs_decl:
                probs.append(f"train(gradient_steps={gs_decl}) made {gs[-1]} critic/policy optimizer steps")
        elif k == "opt":
            if cur_unit is not None and e[1] == "actor.optimizer":
                cur_unit["actor"] = True
        elif k == "polyak":
            _, which, tau, law, untouched, n = e
            if not law:
                probs.append(f"polyak_update on {which} (tau={tau}) did not produce (1-tau)*target + tau*online")
            if not untouched:
                probs.append(f"polyak_update on {which} changed the online parameters")
            if cur_unit is None:
                probs.append(f"polyak_update on {which} outside any {'env step' if cfg['algo'] == 'DQN' else 'gradient step'}")
                continue
            if which.startswith("bn"):
                if tau != 1.0:
                    probs.append(f"running statistics of {which} averaged with tau={tau} instead of copied")
                cur_unit["bn"].append(which)
            else:
                if abs(tau - cfg["tau"]) > 1e-12:
                    probs.append(f"polyak_update on {which} used tau={tau}, configured {cfg['tau']}")
                cur_unit["main"].append(which)
    close()
    flags = []
    for u in units:
        m = sorted(u["main"])
        if m and m != sorted(main):
            probs.append(f"an update touched targets {m}, expected all of {sorted(main)} exactly once")
        # one tau = 1 copy of running statistics per updated target (a features extractor shared by two targets is named once for both)
        if m and impl["has_bn"] and len(u["bn"]) != len(main):
            probs.append(f"an update of {m} did not copy the running statistics of every target (copied: {u['bn']})")
        if not m and u["bn"]:
            probs.append("running statistics copied without a parameter update")
        flags.append(bool(m))
    return flags, gs, [u["actor"] for u in units], probs


def model_expr(cfg, flags, gs):
    if cfg["algo"] == "DQN":
        return f"dqn_steps (dqn_period {coq_Z(cfg['tui'])} {coq_Z(cfg['n_envs'])}) 0%Z {coq_nat(len(flags))}"
    if cfg["algo"] == "SAC":
        return f"sac_calls {coq_Z(cfg['tui'])} {coq_list(gs, coq_nat)}"
    delay = cfg["policy_delay"] if cfg["algo"] == "TD3" else 1
    return f"td3_calls {coq_Z(delay)} 0%Z {coq_list(gs, coq_nat)}"


def closed_form_expr(cfg):
    """(rollouts, train() calls, gradient steps per call, target updates) of the whole learn() call from the closed forms of
    Model.LearnCadence (train_freq in steps only)"""
    f, n = cfg["train_freq"], cfg["n_envs"]
    R = f * n
    upd = {"DQN": f"dqn_updates {coq_Z(cfg['tui'])} {coq_Z(n)} {coq_Z(f)} 0%Z NR",
           "SAC": f"sac_updates {coq_Z(cfg['tui'])} g T",
           "TD3": f"td3_updates {coq_Z(cfg['policy_delay'])} 0%Z g T",
           "DDPG": "td3_updates 1%Z 0%Z g T"}[cfg["algo"]]
    return (f"let R := {coq_Z(R)} in let NR := n_rollouts R {coq_Z(cfg['total'])} 0%Z in "
            f"let g := grad_steps {coq_Z(cfg['gradient_steps'])} R in "
            f"let T := (if Z.ltb 0 g then n_trains R {coq_Z(cfg['learning_starts'])} 0%Z NR else 0%nat) in (Z.of_nat NR, Z.of_nat T, g, {upd})")


def check_closed_form(cfg, impl, flags, gs, mv):
    n_cb = sum(1 for e in impl["events"] if e[0] == "cb")
    mNR, mT, mg, mupd = mv
    got = (n_cb // cfg["train_freq"], len(gs), sorted(set(gs)), sum(flags))
    want_g = [mg] if mT > 0 else []
    if got != (mNR, mT, want_g, mupd) or n_cb % cfg["train_freq"]:
        return [("learn-call-closed-form", f"{cfg['algo']}: observed (rollouts, train() calls, gradient steps per call, target updates) = {got} over {n_cb} vectorised steps; "
                                           f"closed form = {(mNR, mT, want_g, mupd)}")]
    return []


def oracle_run(cfg, impl, flags, gs, actor, structural):
    probs = [("oracle-" + ("polyak-rule" if "polyak" in p or "running" in p else "update-structure"), p) for p in structural]
    for p in impl["problems"]:
        probs.append(("oracle-target-changed-outside-update", p))
    for p in impl["monitor"]:
        probs.append(("monitor-optimizer-touches-target", p))
    for kind, tau_, cnt, err in impl.get("instant_law", []):
        if kind == "shared-twice" and cfg["algo"] in ("TD3", "DDPG") and cfg.get("share_fe"):
            probs.append((CAND_SHARED, f"{cfg['algo']} with share_features_extractor=True and a parametric features extractor: the target features extractor belongs to critic_target AND actor_target "
                                       f"and is written by both polyak_update calls of one update: target = (1-tau)^2*target + (1-(1-tau)^2)*online (tau={tau_}), not (1-tau)*target + tau*online (error {err:.3g})"))
        else:
            probs.append(("oracle-update-instant-law", f"after an update instant a target tensor written {cnt} time(s) differs from (1-tau)*target + tau*online (tau={tau_}) by {err:.3g}"))
    idx = [i for i, f in enumerate(flags) if f]
    a = cfg["algo"]
    if a == "DQN":
        # from the property text: one update every `tui` environment steps counted across sub-environments.  The counter advances n_envs at a
        # time, so the closest admissible cadence is: every gap between consecutive updates (and from the start to the first update), measured
        # in environment steps, lies in (tui - n_envs, tui] - as close to tui as the vector step allows, never later - or equals n_envs when
        # n_envs >= tui; and no due update is missing at the end of the run
        n, tui = cfg["n_envs"], cfg["tui"]
        pts = [0] + [(i + 1) * n for i in idx]
        gaps = [b_ - a_ for a_, b_ in zip(pts, pts[1:])]
        ok_gap = (lambda g: g == n) if n >= tui else (lambda g: tui - n < g <= tui)
        tail = len(flags) * n - pts[-1]
        if not all(ok_gap(g) for g in gaps) or tail >= (n if n >= tui else tui) or len(set(gaps)) > 1:
            probs.append(("oracle-dqn-update-instants", f"updates after vectorised steps {[i + 1 for i in idx][:12]} ({n} envs): gaps {gaps[:12]} environment steps, "
                                                        f"allowed: constant, in ({tui - n}, {tui}]" + (f" (= {n} since n_envs >= interval)" if n >= tui else "") + f"; {tail} steps after the last update"))
    elif a == "SAC":
        tui = cfg["tui"]
        ok = all(b - c == tui for c, b in zip(idx, idx[1:])) and (not idx or idx[0] < tui) and (len(flags) - (idx[-1] if idx else -tui) <= tui if flags else True)
        if flags and not idx:
            ok = False
        if not ok:
            restart = [j % tui == 0 for g in gs for j in range(g)]
            if flags == restart:
                probs.append((KNOWN_F9, f"SAC target_update_interval={tui}, train() calls of {sorted(set(gs))} gradient steps: {len(idx)} target updates in {len(flags)} gradient steps "
                                        f"(expected one every {tui}): the gradient_step counter restarts in every train() call"))
            else:
                probs.append(("oracle-sac-update-instants", f"updates at gradient steps {idx[:20]} are not spaced by target_update_interval={tui}"))
    else:
        delay = cfg["policy_delay"] if a == "TD3" else 1
        want = [u for u in range(len(flags)) if (u + 1) % delay == 0]
        if idx != want:
            probs.append(("oracle-td3-update-instants", f"updates at gradient steps {[i + 1 for i in idx][:20]}, expected every policy_delay={delay} steps"))
        if [i for i, f in enumerate(actor) if f] != idx:
            probs.append(("oracle-td3-update-not-at-policy-update", "target updates and delayed actor updates do not coincide"))
    return probs


# ---------------------------------------------------------------- driver

def load_corpus():
    p = os.path.join(common.VERIF, "corpus", "C08.jsonl")
    return [json.loads(l) for l in open(p) if l.strip()] if os.path.exists(p) else []


def run_all(chk, pcases, runs, ucases=()):
    import traceback

    def guarded(f, c, what):
        try:
            return f(c)
        except Exception as e:
            chk.violation("oracle-implementation-raised", f"{what} raised {type(e).__name__}: {e}", {"case": c, "traceback": traceback.format_exc()[-2500:]}, found_input=True)
            return None

    pimpls = [guarded(run_polyak, c, "polyak_update on generated tensor lists") for c in pcases]
    uimpls = [guarded(run_units, c, "a sequence of polyak_update calls") for c in ucases]
    keep_p = [k for k, im in enumerate(pimpls) if im is not None]
    keep_u = [k for k, im in enumerate(uimpls) if im is not None]
    pcases[:] = [pcases[k] for k in keep_p]
    pimpls = [pimpls[k] for k in keep_p]
    if isinstance(ucases, list):
        ucases[:] = [ucases[k] for k in keep_u]
    uimpls = [uimpls[k] for k in keep_u]
    rimpls, derived = [], []
    for cfg in runs:
        try:
            im = run_algo(cfg)
            rimpls.append(im)
            derived.append(flags_of(cfg, im))
        except Exception as e:
            rimpls.append({"crash": f"{type(e).__name__}: {e}", "traceback": traceback.format_exc()[-2500:]})
            derived.append(None)
    exprs = [polyak_expr(c, im) for c, im in zip(pcases, pimpls)]
    ridx = []
    for cfg, d in zip(runs, derived):
        if d is not None:
            ridx.append(len(exprs))
            exprs.append(model_expr(cfg, d[0], d[1]))
            if cfg["train_freq"] != "episode" and not cfg.get("total2"):
                exprs.append(closed_form_expr(cfg))
        else:
            ridx.append(None)
    u0 = len(exprs)
    exprs += [units_expr(c, im) for c, im in zip(ucases, uimpls)]
    vals = common.coq_eval_many("C08", HEADER, exprs, shard=60, procs=4)
    run_all.units = (uimpls, vals[u0:])
    return pimpls, rimpls, derived, vals[:u0], ridx


def main():
    chk = Check("C08", groups=["polyak", "learnloop"])
    chk.build_props()
    from harness import linecov

    _cov = linecov.maybe_start(COV_FUNCS)
    quick = chk.tier == "quick"
    n_p, n_r = (200, 60) if quick else (4000, 600)
    corpus = load_corpus()
    pcases = [gen_polyak_case(chk.rng, i) for i in range(n_p)]
    runs = [c for c in corpus] + [gen_run(chk.rng, i) for i in range(n_r)]
    ucases = [gen_units_case(chk.rng, i) for i in range(100 if quick else 1500)]
    pimpls, rimpls, derived, vals, ridx = run_all(chk, pcases, runs, ucases)
    new, model_only = 0, []
    for c, im, mv in zip(ucases, *run_all.units):
        orc = oracle_units(c, im)
        if orc and new < 3:
            chk.violation(orc[0][0], orc[0][1], {"units_case": c, "impl": im}, found_input=True)
            new += 1
        elif not orc and not (all(mv[0]) and all(mv[1])):
            model_only.append(("model-correspondence-units-run", f"polyak_update sequence vs Model.Polyak.units_run disagree: {mv}", {"units_case": c, "impl": im,
                               "correspondence": "harness/c08.py run_units vs Model.Polyak.units_run"}))
    # (a)
    for c, im, mv in zip(pcases, pimpls, vals[:len(pcases)]):
        orc = oracle_polyak(c, im)
        mod_ok = (mv is True) if isinstance(mv, bool) else all(mv)
        if orc and new < 3:
            chk.violation(orc[0][0], orc[0][1], {"polyak_case": c, "impl": im}, found_input=True)
            new += 1
        elif not orc and not mod_ok:
            model_only.append(("model-correspondence-polyak", f"polyak_update vs Model.Polyak.polyak_list disagree: {mv}", {"polyak_case": c, "impl": im,
                               "correspondence": "harness/c08.py run_polyak vs Model.Polyak.polyak_list"}))
    # (b)
    hist = {"algo": {}, "n_envs": {}, "gradient_steps": {}, "bn": 0, "updates": 0, "units": 0, "train_calls": 0, "f9_runs": 0, "closed_form_checked": 0}
    distinct = set()
    for cfg, im, d, ri in zip(runs, rimpls, derived, ridx):
        hist["algo"][cfg["algo"]] = hist["algo"].get(cfg["algo"], 0) + 1
        hist["n_envs"][cfg["n_envs"]] = hist["n_envs"].get(cfg["n_envs"], 0) + 1
        hist["gradient_steps"][cfg["gradient_steps"]] = hist["gradient_steps"].get(cfg["gradient_steps"], 0) + 1
        hist["bn"] += int(cfg["bn"])
        if d is None:
            if new < 3:
                sig = "oracle-target-not-copy-of-online-at-construction" if "TARGET-NOT-A-COPY" in im["crash"] else "oracle-implementation-raised"
                chk.violation(sig, "construction / learn() / an instrumented call raised on a legal configuration: " + im["crash"],
                              {"run": cfg, "traceback": im.get("traceback")}, found_input=True)
                new += 1
            continue
        flags, gs, actor, structural = d
        hist["updates"] += sum(flags); hist["units"] += len(flags); hist["train_calls"] += len(gs)  # noqa: E702
        if sum(flags) >= 2 and not all(flags):
            distinct.add((cfg["algo"], cfg["n_envs"], cfg["tui"], cfg["policy_delay"], cfg["gradient_steps"], str(cfg["train_freq"])))
        orc = oracle_run(cfg, im, flags, gs, actor, structural)
        hist["closed_form_checked"] += int(cfg["train_freq"] != "episode" and not cfg.get("total2"))
        mflags = list(vals[ri])
        f9 = [p for p in orc if p[0] == KNOWN_F9]
        cs = [p for p in orc if p[0] == CAND_SHARED]
        other = [p for p in orc if p[0] not in (KNOWN_F9, CAND_SHARED)]
        if cs:
            hist["shared_extractor_runs"] = hist.get("shared_extractor_runs", 0) + 1
            if hist["shared_extractor_runs"] == 1:
                chk.violation(CAND_SHARED, cs[0][1], {"run": cfg}, found_input=True)
        if f9:
            hist["f9_runs"] += 1
            if hist["f9_runs"] == 1:
                chk.violation(KNOWN_F9, f9[0][1], {"run": cfg, "flags": flags, "train_calls": gs}, found_input=True)
        if other and new < 3:
            chk.violation(other[0][0], "; ".join(m for _, m in other[:3]), {"run": cfg, "problems": other[:10], "flags": flags, "model_flags": mflags, "train_calls": gs}, found_input=True)
            new += 1
        elif not other and cfg["train_freq"] != "episode" and not cfg.get("total2") and check_closed_form(cfg, im, flags, gs, vals[ri + 1]):
            cf = check_closed_form(cfg, im, flags, gs, vals[ri + 1])
            model_only.append(("model-correspondence-" + cf[0][0], cf[0][1], {"run": cfg, "flags": flags, "train_calls": gs,
                               "correspondence": "harness/c08.py instrumented run vs Model.LearnCadence closed forms"}))
        elif not other and mflags != flags:
            model_only.append(("model-correspondence-cadence", f"{cfg['algo']}: update flags impl {flags} model {mflags}",
                               {"run": cfg, "flags": flags, "model_flags": mflags, "train_calls": gs,
                                "correspondence": "harness/c08.py instrumented run vs Model.Cadence"}))
    for sig, what, rp in model_only[:max(0, 3 - new)]:       # model / implementation disagreements the oracle does not confirm: after the concrete inputs
        chk.violation(sig, what, rp, found_input=False)
    chk.coverage["evaluations"] = len(pcases) + len(runs) + len(ucases)
    chk.coverage["traces_validated_against_impl"] = len(runs)
    chk.coverage["distinct_nontrivial"] = len(distinct)
    chk.coverage["rule"] = ("(a) polyak_update on generated tensor lists (exact dyadic stream with tolerance 0, toleranced stream 1e-6, 15% length mismatches); "
                            "(b) instrumented real DQN/SAC/TD3/DDPG runs of 14-36 timesteps (n_envs 1-3, train_freq 1-3 steps or one episode, gradient_steps 1-4 or -1, target_update_interval 1-10, "
                            "policy_delay 1-3, tau in {1, .5, .25, .005}, 30% with a batch-norm features extractor); non-trivial run = at least two target updates and at least one step without update; "
                            "distinct = distinct (algo, n_envs, interval, delay, gradient_steps, train_freq) among non-trivial runs")
    chk.notes["input_distribution"] = hist
    chk.notes["corpus_cases"] = len(corpus)
    chk.notes["partial"] = "clause 'targets are never changed by an optimizer' is checked by a runtime monitor on the executed runs only (snapshots around every optimizer.step, parameter identity)"
    chk.add_samples([{k: runs[i][k] for k in ("algo", "n_envs", "train_freq", "gradient_steps", "tui", "policy_delay", "tau", "learning_starts", "total", "bn")} for i in (len(corpus), len(corpus) + 1) if i < len(runs)])
    chk.assumptions += [
        "torch kernels mul_/add(alpha=...) and float32 rounding are not modelled: exact dyadic stream + tolerance 1e-6",
        "the number of gradient steps of each train() call is taken from the recorded calls (the learn loop itself is C12's subject)",
        "optimizer / target disjointness is a runtime monitor on the executed runs, not a theorem",
    ]
    linecov.finish(_cov, chk)
    return chk.finish()


def replay(path):
    d = json.load(open(path))["replay"]
    chk = Check("C08", groups=["polyak", "learnloop"])
    if "run" in d:
        cfg = d["run"]
        im = run_algo(cfg)
        flags, gs, actor, structural = flags_of(cfg, im)
        mflags = common.coq_eval_many("C08_replay", HEADER, [model_expr(cfg, flags, gs)])[0]
        orc = oracle_run(cfg, im, flags, gs, actor, structural)
        print(json.dumps({"flags": flags, "model_flags": mflags, "train_calls": gs, "oracle": orc[:10]}, indent=1))
        return 1 if [p for p in orc if p[0] not in (KNOWN_F9, CAND_SHARED)] or list(mflags) != flags else 0
    c = d["polyak_case"]
    im = run_polyak(c)
    orc = oracle_polyak(c, im)
    print(json.dumps({"impl": im, "oracle": orc}, indent=1))
    return 1 if orc else 0
