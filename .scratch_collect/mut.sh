#!/bin/bash
prop=$1; name=$2; file=$3; old=$4; new=$5
d=/tmp/repo_mut_$prop
rm -rf $d && mkdir -p $d && cp -r /repo/stable_baselines3 $d/
/venv/bin/python - "$d/$file" "$old" "$new" <<'P'
import sys
p,old,new=sys.argv[1:4]
s=open(p).read()
assert s.count(old)==1, (s.count(old), old)
open(p,'w').write(s.replace(old,new))
P
cd /verif && OMP_NUM_THREADS=1 MKL_NUM_THREADS=1 VERIF_REPO=$d ./check $prop 2>&1 | grep -v "KNOWN-FINDING" | tail -4 | cut -c1-250
rm -rf $d
echo "== $name done"
