#!/venv/bin/python
"""Regenerate MANIFEST.json from harness/registry.py (keeps it valid at all times)."""
import json, os, sys
sys.path.insert(0, os.path.dirname(os.path.abspath(__file__)))
from harness.registry import CHECKS, NOT_APPLICABLE, NOTES

m = {
    "version": 1,
    "setup_cmd": "cd /verif && ./check --setup",
    "hooks": {
        "guard": "DLR_RM_STABLE_BASELINES3_VERIF",
        "enable": "none needed: the checks import /repo's working tree directly (PYTHONPATH=/repo); the guard variable is set by the harness but no guarded hook exists in /repo",
        "baseline_off_cmd": "cd /repo && env -u DLR_RM_STABLE_BASELINES3_VERIF /venv/bin/python -m pytest -ra -q -p no:cacheprovider --timeout=900 --continue-on-collection-errors",
        "source_commits": [],
        "add_only": True,
    },
    "engines": [
        {"name": "coq-models", "path": "/verif/coq", "serves_properties": sorted(CHECKS), "kind_free_text": "Gallina models + theorems (Coq 8.16.1), fragments regenerated from /repo by translate/py2coq.py"},
        {"name": "correspondence-harness", "path": "/verif/harness", "serves_properties": sorted(CHECKS), "kind_free_text": "differential execution of the real implementation vs the Gallina models evaluated with vm_compute inside coqc, plus statement-level oracles"},
    ],
    "checks": [],
    "notes": NOTES,
    "not_applicable": [{"property_id": p, "reason": r} for p, r in sorted(NOT_APPLICABLE.items())],
}
for pid in sorted(CHECKS):
    c = CHECKS[pid]
    m["checks"].append({
        "property_id": pid,
        "quick_cmd": f"cd /verif && ./check {pid} --tier quick",
        "thorough_cmd": f"cd /verif && ./check {pid} --tier thorough",
        "evidence_file": f"/verif/evidence/{pid}.json",
        "replay_cmd_template": f"cd /verif && ./check {pid} --replay {{path}}",
        "engine": "coq-models",
        "level_claimed": {"category": c.get("category", "proof"), "text": c["text"], "design_ref": c.get("design_ref", f"DESIGN.md sections 5 (plan) and 10.3 (as built) {pid}")},
        "level_note": c["note"],
        "technique": c["technique"],
    })
json.dump(m, open(os.path.join(os.path.dirname(os.path.abspath(__file__)), "MANIFEST.json"), "w"), indent=1)
print("MANIFEST.json written:", len(m["checks"]), "checks,", len(m["not_applicable"]), "not_applicable")
